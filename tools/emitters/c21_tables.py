"""C21 emitter: the tag tables `_audit_tags` and the parser read from an Environment.

Regenerates lean/LiquidVerif/Gen/C21Tables.lean from the *live* code of the repo under test: a child
interpreter imports `liquid` from that tree (checked: `liquid.__file__` must lie under it) and dumps

* `env.tags` (key, tag.name, tag.block, tag.end, tag.mode == Mode.LAX, class name) for `Environment()` and
  `Environment(extra=True)`, in registration order;
* `liquid.analyze_tags.DEFAULT_INNER_TAG_MAP`;
* `Environment.block_nesting_limit`.

Tag names are emitted in the model's representation (number of leading "end" prefixes, stem).
Fails closed: anything unexpected raises, which the translator reports as a broken obligation.
"""
from __future__ import annotations

import json
import os
import subprocess
import sys
from pathlib import Path

_DUMP = r"""
import json, sys, os, ast, inspect, textwrap
import liquid
from liquid import Environment
from liquid.mode import Mode
from liquid import analyze_tags as at
root = os.path.realpath(sys.argv[1])
if not os.path.realpath(liquid.__file__).startswith(root + os.sep):
    raise SystemExit("liquid imported from %s, not from %s" % (liquid.__file__, root))
from liquid.token import TOKEN_EOF
def parser_names(tag):
    # tag names the tag's parse code looks for in the token stream: the end tuples of every parse_block /
    # eat_block call, the values of stream.expect(TOKEN_TAG, ..), stream.current.is_tag(..) and comparisons of
    # stream.current.value; argument expressions are evaluated in the tag module's namespace
    cls = type(tag)
    tree = ast.parse(textwrap.dedent(inspect.getsource(cls)))
    mod = sys.modules[cls.__module__]
    found = set()
    def ev(node):
        v = eval(compile(ast.Expression(node), "<c21>", "eval"), dict(mod.__dict__), {"self": tag})
        vs = [v] if isinstance(v, str) else list(v)
        for x in vs:
            if not isinstance(x, str):
                raise SystemExit("non-string tag name in %s: %s" % (cls.__name__, ast.unparse(node)))
            found.add(x)
    for n in ast.walk(tree):
        if isinstance(n, ast.Call):
            f = n.func
            fname = f.attr if isinstance(f, ast.Attribute) else (f.id if isinstance(f, ast.Name) else None)
            kw = {k.arg: k.value for k in n.keywords}
            if fname in ("parse_block", "eat_block"):
                arg = kw.get("end") or (n.args[1] if len(n.args) > 1 else None)
                if arg is None:
                    raise SystemExit("cannot find the end tuple of %s" % ast.unparse(n))
                ev(arg)
            elif fname in ("expect", "expect_peek"):
                arg = kw.get("value") or (n.args[1] if len(n.args) > 1 else None)
                if arg is not None:
                    ev(arg)
            elif fname == "is_tag":
                ev(n.args[0])
        elif isinstance(n, ast.Compare) and len(n.ops) == 1 and isinstance(n.ops[0], (ast.Eq, ast.NotEq, ast.In, ast.NotIn)):
            l = n.left
            if isinstance(l, ast.Attribute) and l.attr == "value" and "current" in ast.unparse(l):
                ev(n.comparators[0])
    found.discard(TOKEN_EOF)
    return sorted(found)
def dump(env):
    out = []
    for key, tag in env.tags.items():
        name, block, end = tag.name, tag.block, getattr(tag, "end", "")
        if not isinstance(key, str) or not isinstance(name, str) or not isinstance(end, str) or not isinstance(block, bool):
            raise SystemExit("unexpected registry entry %r" % (key,))
        out.append({"key": key, "name": name, "block": block, "end": end,
                    "lax": getattr(tag, "mode", None) == Mode.LAX, "cls": type(tag).__name__,
                    "pnames": parser_names(tag)})
    return out
inner = {k: list(v) for k, v in at.DEFAULT_INNER_TAG_MAP.items()}
print(json.dumps({"default": dump(Environment()), "extra": dump(Environment(extra=True)), "inner": inner,
                  "limit": Environment.block_nesting_limit}))
"""


def to_name(s: str):
    k = 0
    while s.startswith("end"):
        k += 1
        s = s[3:]
    return k, s


def lean_str(s: str) -> str:
    out = []
    for ch in s:
        if ch == '"' or ch == "\\":
            out.append("\\" + ch)
        elif 32 <= ord(ch) < 127:
            out.append(ch)
        else:
            out.append("\\u{%x}" % ord(ch))
    return '"' + "".join(out) + '"'


def lean_name(s: str) -> str:
    k, stem = to_name(s)
    return f"⟨{k}, {lean_str(stem)}⟩"


def lean_bool(b: bool) -> str:
    return "true" if b else "false"


def live_tables(repo: Path) -> dict:
    env = dict(os.environ)
    env["PYTHONPATH"] = str(repo)
    env["PYTHONDONTWRITEBYTECODE"] = "1"
    p = subprocess.run([sys.executable, "-c", _DUMP, str(repo)], capture_output=True, text=True, env=env, cwd="/")
    if p.returncode != 0:
        raise RuntimeError("cannot read the live tag registry: " + (p.stderr or p.stdout)[-400:])
    return json.loads(p.stdout)


def emit(repo: Path) -> dict:
    t = live_tables(Path(repo))
    if not isinstance(t["limit"], int) or t["limit"] < 0:
        raise RuntimeError("block_nesting_limit is not a natural number")
    lines = [
        "import LiquidVerif.Model.TagAudit",
        "/-! Tag tables of the default and the extra Environment, `DEFAULT_INNER_TAG_MAP`, `block_nesting_limit`. -/",
        "namespace LiquidVerif.Gen.C21",
        "open LiquidVerif.TagAudit",
        "",
        "def innerMap : List (TagName × List TagName) := [",
    ]
    lines.append(",\n".join(f"  ({lean_name(k)}, [{', '.join(lean_name(x) for x in v)}])" for k, v in t["inner"].items()))
    lines.append("]")
    lines.append("")
    lines.append(f"def nestingLimit : Nat := {t['limit']}")
    for envname in ("default", "extra"):
        lines.append("")
        lines.append(f"def {envname}Tags : List TagInfo := [")
        rows = []
        for e in t[envname]:
            rows.append(
                f"  {{ key := {lean_name(e['key'])}, name := {lean_name(e['name'])}, block := {lean_bool(e['block'])}, "
                f"endTag := {lean_name(e['end'])}, lax := {lean_bool(e['lax'])} }}  -- {e['cls']}"
            )
        # the comment must not swallow the separating comma: put commas in front
        lines.append("\n".join(("   " if i == 0 else "  ,") + r[2:] for i, r in enumerate(rows)))
        lines.append("]")
        lines.append("")
        lines.append(f"/-- tag names each registered tag's parse code looks for (parse_block/eat_block end tuples, expect, is_tag) -/")
        lines.append(f"def {envname}ParserNames : List (TagName × List TagName) := [")
        lines.append(",\n".join(f"  ({lean_name(e['key'])}, [{', '.join(lean_name(x) for x in e['pnames'])}])" for e in t[envname]))
        lines.append("]")
        lines.append("")
        lines.append(f"def {envname}Env : EnvTable := {{ tags := {envname}Tags, inner := innerMap, nestingLimit := nestingLimit }}")
    lines.append("")
    lines.append("end LiquidVerif.Gen.C21")
    return {"C21Tables.lean": "\n".join(lines) + "\n"}


if __name__ == "__main__":
    print(emit(Path(sys.argv[1] if len(sys.argv) > 1 else "/repo"))["C21Tables.lean"])
