"""C08 emitter: the exception class hierarchy and the shape of the five limit checks.

Regenerates lean/LiquidVerif/Gen/C08Exceptions.lean from the source of the repo under test (Python `ast`, no import
of liquid):

* `excBases`   — every class of `liquid/exceptions.py` with the names of its bases;
* `limitChecks` — for each place a resource limit is tested (`LimitedStringIO.write`, `RenderContext.assign`,
  `raise_for_loop_limit`, `extend`, `copy`, `Parser.parse_block`): the class raised, the comparison operator of the
  test that guards the `raise`, and whether the test is of the form `limit and <comparison>` (falsy zero).

Fails closed: a site that is not found, or whose guard is not `[limit and] a <op> b`, raises.
"""
from __future__ import annotations

import ast
from pathlib import Path

SITES = [
    ("liquid/output.py", "LimitedStringIO", "write"),
    ("liquid/context.py", "RenderContext", "assign"),
    ("liquid/context.py", "RenderContext", "raise_for_loop_limit"),
    ("liquid/context.py", "RenderContext", "extend"),
    ("liquid/context.py", "RenderContext", "copy"),
    ("liquid/parser.py", "Parser", "parse_block"),
]


def lean_str(s: str) -> str:
    return '"' + s.replace("\\", "\\\\").replace('"', '\\"') + '"'


def base_name(b: ast.expr) -> str:
    if isinstance(b, ast.Name):
        return b.id
    if isinstance(b, ast.Attribute):
        return b.attr
    raise ValueError("unexpected base expression " + ast.dump(b))


def find_func(tree: ast.Module, cls: str, fn: str) -> ast.FunctionDef:
    for node in tree.body:
        if isinstance(node, ast.ClassDef) and node.name == cls:
            for item in node.body:
                if isinstance(item, ast.FunctionDef) and item.name == fn:
                    return item
    raise ValueError(f"{cls}.{fn} not found")


def raised_class(r: ast.Raise) -> str:
    exc = r.exc
    if isinstance(exc, ast.Call):
        exc = exc.func
    return base_name(exc)


def guard_shape(test: ast.expr):
    falsy = False
    if isinstance(test, ast.BoolOp) and isinstance(test.op, ast.And) and len(test.values) == 2:
        first = test.values[0]
        if not (isinstance(first, ast.Attribute) and first.attr.endswith("_limit")):
            raise ValueError("unexpected first operand of the limit test: " + ast.dump(first))
        falsy = True
        test = test.values[1]
    if not (isinstance(test, ast.Compare) and len(test.ops) == 1):
        raise ValueError("limit test is not a single comparison: " + ast.dump(test))
    return type(test.ops[0]).__name__, falsy


def limit_checks(repo: Path):
    out = []
    for rel, cls, fn in SITES:
        tree = ast.parse((repo / rel).read_text())
        f = find_func(tree, cls, fn)
        found = []
        for node in ast.walk(f):
            if isinstance(node, ast.If):
                for stmt in node.body:
                    if isinstance(stmt, ast.Raise):
                        name = raised_class(stmt)
                        if name.endswith("Error"):
                            op, falsy = guard_shape(node.test)
                            found.append((name, op, falsy))
        if len(found) != 1:
            raise ValueError(f"{rel}:{cls}.{fn}: expected exactly one guarded raise, found {found}")
        out.append((rel, f"{cls}.{fn}", *found[0]))
    return out


def emit(repo: Path) -> dict:
    tree = ast.parse((repo / "liquid" / "exceptions.py").read_text())
    classes = [(n.name, [base_name(b) for b in n.bases]) for n in tree.body if isinstance(n, ast.ClassDef)]
    if not classes:
        raise ValueError("no classes in liquid/exceptions.py")
    lines = [
        "/-! Exception classes of `liquid/exceptions.py` and the shape of the five resource-limit checks. -/",
        "namespace LiquidVerif.Gen.C08",
        "",
        "/-- (class, bases) in source order -/",
        "def excBases : List (String × List String) := [",
    ]
    lines += [
        "  (" + lean_str(n) + ", [" + ", ".join(lean_str(b) for b in bs) + "])" + ("," if i + 1 < len(classes) else "")
        for i, (n, bs) in enumerate(classes)
    ]
    lines += ["]", "", "/-- (file, function, class raised, comparison operator of the guard, guard is `limit and …`) -/",
              "def limitChecks : List (String × String × String × String × Bool) := ["]
    checks = limit_checks(repo)
    lines += [
        "  (" + ", ".join([lean_str(rel), lean_str(fn), lean_str(cls), lean_str(op), "true" if falsy else "false"]) + ")"
        + ("," if i + 1 < len(checks) else "")
        for i, (rel, fn, cls, op, falsy) in enumerate(checks)
    ]
    lines += ["]", "", "end LiquidVerif.Gen.C08", ""]
    return {"C08Exceptions.lean": "\n".join(lines)}
