"""C03 translator: inventory of every place the tolerance mode is consulted in liquid/, plus the tables and the
control-flow skeletons the hand model (lean/LiquidVerif/Model/Mode.lean) is parameterised by / mirrors.

Emits lean/LiquidVerif/Gen/ModeSites.lean:

* `sites` — every occurrence of an attribute named `mode` and every `Mode.<X>` reference under <repo>/liquid,
  classified by the *shape of the code around it* (Python `ast`, no execution):
    - `raiseGuard`  `x.mode == Mode.STRICT` is the test, or a conjunct of the `and` test, of an `if` whose body is a
                    single `raise` and which has no `else`: in every other mode the statement is a no-op, and a strict
                    run that does not raise takes the same path as the other modes;
    - `dispatch`    inside a method called `error` of `Environment` / `RenderContext` (the shape of those methods is
                    emitted separately as `errorShapes`);
    - `tagConstant` `self.mode` inside a class that binds `mode = Mode.<X>` at class level (IfTag / UnlessTag: a
                    parsing flavour of the tag, independent of the environment's tolerance);
    - `definition`  stores (`self.mode = tolerance`), class-level bindings, parameter defaults, the enum itself;
    - `hash`        inside `__hash__`;
    - `other`       anything else — NOT benign.
  with the obligation `all_sites_benign` (kernel `decide`). A new mode-dependent branch is `other` and breaks it.
* `warnings` — `exceptions.WARNINGS` as (error class, warning class) names; `syntaxClasses` — `LiquidSyntaxError` and
  every class in liquid/exceptions.py deriving from it (what `except LiquidSyntaxError` in IfTag.parse catches).
* `errorShapes` — `Environment.error` and `RenderContext.error` reduced to `mode-test => action` steps.
* `skeletons` — the try/except skeleton of `Parser._parse`, `Parser.parse_block`, `Tag.get_node`,
  `IfTag.parse`, `UnlessTag.parse`, `BoundTemplate.render_with_context(_async)`: which exception classes are caught
  where, and whether the handler calls `error`, re-raises, breaks, eats a block or returns an `IllegalNode`.
  Props/C03.lean pins the reviewed skeletons; a removed handler or a changed arm breaks the pin.
The emitter fails closed: what it cannot classify is `other`; a missing function yields the skeleton "MISSING".
"""
from __future__ import annotations

import ast
import json
from pathlib import Path


def lean_str(s: str) -> str:
    out = []
    for ch in s:
        if ch == "\\":
            out.append("\\\\")
        elif ch == '"':
            out.append('\\"')
        elif ch == "\n":
            out.append("\\n")
        elif ch == "\t":
            out.append("\\t")
        elif ord(ch) < 32 or ord(ch) == 127:
            out.append("\\x%02x" % ord(ch))
        else:
            out.append(ch)
    return '"' + "".join(out) + '"'


def parents(tree):
    par = {}
    for n in ast.walk(tree):
        for c in ast.iter_child_nodes(n):
            par[c] = n
    return par


def chain(node, par):
    while node in par:
        node = par[node]
        yield node


def is_mode_enum_ref(n):
    return isinstance(n, ast.Attribute) and isinstance(n.value, ast.Name) and n.value.id == "Mode"


def class_binds_mode(cls: ast.ClassDef):
    for st in cls.body:
        targets = []
        if isinstance(st, ast.Assign):
            targets = st.targets
            val = st.value
        elif isinstance(st, ast.AnnAssign) and st.value is not None:
            targets = [st.target]
            val = st.value
        else:
            continue
        for t in targets:
            if isinstance(t, ast.Name) and t.id == "mode" and is_mode_enum_ref(val):
                return val.attr
    return None


def classify_attr(node: ast.Attribute, par):
    """node: an Attribute with attr == 'mode'."""
    if isinstance(node.ctx, (ast.Store, ast.Del)):
        return "definition"
    up = list(chain(node, par))
    func = next((u for u in up if isinstance(u, (ast.FunctionDef, ast.AsyncFunctionDef))), None)
    cls = next((u for u in up if isinstance(u, ast.ClassDef)), None)
    cmp_ = par.get(node)
    if not isinstance(cmp_, ast.Compare):
        if func is not None and func.name == "__hash__":
            return "hash"
        return "other"
    if func is not None and func.name == "error" and cls is not None and cls.name in ("Environment", "RenderContext"):
        return "dispatch"
    base_self = isinstance(node.value, ast.Name) and node.value.id == "self"
    if base_self and cls is not None and class_binds_mode(cls) is not None:
        return "tagConstant"
    # raise guard: `<x>.mode == Mode.STRICT` as test / conjunct of the test of `if …: raise …` without else
    if not (len(cmp_.ops) == 1 and isinstance(cmp_.ops[0], ast.Eq) and cmp_.left is node and is_mode_enum_ref(cmp_.comparators[0]) and cmp_.comparators[0].attr == "STRICT"):
        return "other"
    holder = par.get(cmp_)
    test = cmp_
    if isinstance(holder, ast.BoolOp) and isinstance(holder.op, ast.And) and cmp_ in holder.values:
        test = holder
        holder = par.get(holder)
    if isinstance(holder, ast.If) and holder.test is test and not holder.orelse and len(holder.body) == 1 and isinstance(holder.body[0], ast.Raise):
        return "raiseGuard"
    return "other"


def classify_enum_ref(node: ast.Attribute, par):
    """node: `Mode.<X>` that is not the right-hand side of a comparison with a `.mode` attribute."""
    p = par.get(node)
    if isinstance(p, ast.Compare):
        sides = [p.left] + list(p.comparators)
        if any(isinstance(s, ast.Attribute) and s.attr == "mode" for s in sides):
            return None  # counted with the attribute
        return "other"
    if isinstance(p, (ast.Assign, ast.AnnAssign)) and isinstance(par.get(p), ast.ClassDef):
        return "definition"
    if isinstance(p, ast.arguments):
        return "definition"
    return "other"


def func_name(node, par):
    names = []
    for u in chain(node, par):
        if isinstance(u, (ast.FunctionDef, ast.AsyncFunctionDef, ast.ClassDef)):
            names.append(u.name)
    return ".".join(reversed(names)) or "<module>"


def dotted(n):
    if isinstance(n, ast.Name):
        return n.id
    if isinstance(n, ast.Attribute):
        return dotted(n.value) + "." + n.attr
    if isinstance(n, ast.Call):
        return dotted(n.func) + "()"
    return "?"


INTERESTING_TEST_NAMES = {"mode", "partial", "block_scope", "block"}


def test_skel(t):
    names = {n.attr for n in ast.walk(t) if isinstance(n, ast.Attribute)} | {n.id for n in ast.walk(t) if isinstance(n, ast.Name)}
    if names & INTERESTING_TEST_NAMES:
        return ast.unparse(t)
    return "?"


def action_skel(stmts):
    """Control-relevant actions of a statement list."""
    out = []
    for st in stmts:
        if isinstance(st, ast.Raise):
            out.append("raise" + (" " + dotted(st.exc).split("(")[0] if st.exc is not None else ""))
        elif isinstance(st, ast.Break):
            out.append("break")
        elif isinstance(st, ast.Continue):
            out.append("continue")
        elif isinstance(st, ast.Return):
            out.append("return " + (dotted(st.value).split("(")[0] if st.value is not None else "None"))
        elif isinstance(st, ast.Expr) and isinstance(st.value, ast.Call):
            name = dotted(st.value.func)
            if name.endswith(".error") or name in ("eat_block", "warnings.warn"):
                out.append(name)
        elif isinstance(st, ast.If):
            body, orelse = action_skel(st.body), action_skel(st.orelse)
            if body or orelse:
                out.append("if(" + test_skel(st.test) + "){" + ";".join(body) + "}" + ("else{" + ";".join(orelse) + "}" if orelse else ""))
        elif isinstance(st, (ast.With, ast.AsyncWith, ast.For, ast.AsyncFor, ast.While)):
            inner = action_skel(st.body)
            if inner:
                out.append("loop{" + ";".join(inner) + "}" if isinstance(st, (ast.For, ast.AsyncFor, ast.While)) else ";".join(inner))
        elif isinstance(st, ast.Try):
            out.append(try_skel(st))
    return out


def handler_type(h):
    if h.type is None:
        return "*"
    if isinstance(h.type, ast.Tuple):
        return "(" + ",".join(dotted(e) for e in h.type.elts) + ")"
    return dotted(h.type)


def try_skel(t: ast.Try):
    body = action_skel(t.body)
    hs = ["except " + handler_type(h) + "{" + ";".join(action_skel(h.body)) + "}" for h in t.handlers]
    fin = ["finally{" + ";".join(action_skel(t.finalbody)) + "}"] if t.finalbody and action_skel(t.finalbody) else []
    return "try{" + ";".join(body) + "}" + "".join(hs) + "".join(fin)


def find_func(tree, cls_name, fname):
    for n in tree.body:
        if isinstance(n, ast.ClassDef) and n.name == cls_name:
            for m in n.body:
                if isinstance(m, (ast.FunctionDef, ast.AsyncFunctionDef)) and m.name == fname:
                    return m
    return None


def error_shape(fn):
    """`error` method -> 'STRICT=>raise;WARN=>warn(lookup_warning)' (anything unexpected is spelled out)."""
    if fn is None:
        return "MISSING"
    steps = []
    body = list(fn.body)
    if body and isinstance(body[0], ast.Expr) and isinstance(body[0].value, ast.Constant) and isinstance(body[0].value.value, str):
        body = body[1:]
    for st in body:
        mentions_mode = any(isinstance(n, ast.Attribute) and n.attr == "mode" for n in ast.walk(st))
        if not mentions_mode:
            # the normalisation prelude of Environment.error (class -> instance, attach token) raises/returns nothing
            if any(isinstance(n, (ast.Raise, ast.Return)) for n in ast.walk(st)) or any(
                isinstance(n, ast.Call) and dotted(n.func) == "warnings.warn" for n in ast.walk(st)
            ):
                steps.append("?" + type(st).__name__)
            continue
        if not isinstance(st, ast.If) or st.orelse:
            steps.append("?" + ast.unparse(st)[:60])
            continue
        t = st.test
        which = "?"
        if isinstance(t, ast.Compare) and len(t.ops) == 1 and isinstance(t.ops[0], ast.Eq) and isinstance(t.left, ast.Attribute) and t.left.attr == "mode" and is_mode_enum_ref(t.comparators[0]):
            which = t.comparators[0].attr
        else:
            which = "?" + ast.unparse(t)
        if len(st.body) == 1 and isinstance(st.body[0], ast.Raise) and st.body[0].exc is not None and dotted(st.body[0].exc) == "exc":
            act = "raise"
        elif len(st.body) == 1 and isinstance(st.body[0], ast.Expr) and isinstance(st.body[0].value, ast.Call) and dotted(st.body[0].value.func) == "warnings.warn":
            call = st.body[0].value
            cat = next((k.value for k in call.keywords if k.arg == "category"), None)
            catname = dotted(cat.func) if isinstance(cat, ast.Call) else (dotted(cat) if cat is not None else "none")
            catarg = dotted(cat.args[0]) if isinstance(cat, ast.Call) and cat.args else ""
            act = "warn(" + catname + ":" + catarg + ")"
        else:
            act = "?" + ";".join(action_skel(st.body))
        steps.append(which + "=>" + act)
    return ";".join(steps)


SKELETON_TARGETS = [
    ("liquid/parser.py", "Parser", "_parse"),
    ("liquid/parser.py", "Parser", "parse_block"),
    ("liquid/tag.py", "Tag", "get_node"),
    ("liquid/builtin/tags/if_tag.py", "IfTag", "parse"),
    ("liquid/builtin/tags/unless_tag.py", "UnlessTag", "parse"),
    ("liquid/template.py", "BoundTemplate", "render_with_context"),
    ("liquid/template.py", "BoundTemplate", "render_with_context_async"),
]


def emit(repo: Path) -> dict:
    repo = Path(repo)
    sites = []
    trees = {}
    for f in sorted((repo / "liquid").rglob("*.py")):
        rel = f.relative_to(repo).as_posix()
        src = f.read_text()
        tree = ast.parse(src)
        trees[rel] = tree
        if rel == "liquid/mode.py":
            continue  # the enum itself
        par = parents(tree)
        for n in ast.walk(tree):
            if isinstance(n, ast.Attribute) and n.attr == "mode" and not (isinstance(n.value, ast.Attribute) and n.value.attr in ("st", "stat")) and "st_mode" != n.attr:
                kind = classify_attr(n, par)
                sites.append((rel, n.lineno, func_name(n, par), kind, ast.unparse(par[n]) if isinstance(par.get(n), ast.Compare) else ast.unparse(n)))
            elif is_mode_enum_ref(n):
                kind = classify_enum_ref(n, par)
                if kind is not None:
                    sites.append((rel, n.lineno, func_name(n, par), kind, ast.unparse(n)))
    sites.sort()

    # WARNINGS and the LiquidSyntaxError family
    ex = trees.get("liquid/exceptions.py")
    warnings_tbl = []
    bases = {}
    if ex is not None:
        for n in ex.body:
            if isinstance(n, ast.ClassDef):
                bases[n.name] = [dotted(b) for b in n.bases]
            tgt = None
            if isinstance(n, ast.AnnAssign) and isinstance(n.target, ast.Name):
                tgt, val = n.target.id, n.value
            elif isinstance(n, ast.Assign) and len(n.targets) == 1 and isinstance(n.targets[0], ast.Name):
                tgt, val = n.targets[0].id, n.value
            if tgt == "WARNINGS" and isinstance(val, ast.Dict):
                warnings_tbl = [(dotted(k), dotted(v)) for k, v in zip(val.keys, val.values)]

    def derives(c, seen=()):
        if c == "LiquidSyntaxError":
            return True
        return any(derives(b, seen + (c,)) for b in bases.get(c, []) if b not in seen)

    syntax_classes = sorted(c for c in bases if derives(c))

    err_shapes = [
        ("Environment.error", error_shape(find_func(trees["liquid/environment.py"], "Environment", "error")) if "liquid/environment.py" in trees else "MISSING"),
        ("RenderContext.error", error_shape(find_func(trees["liquid/context.py"], "RenderContext", "error")) if "liquid/context.py" in trees else "MISSING"),
    ]
    skeletons = []
    for rel, cls, fn in SKELETON_TARGETS:
        f = find_func(trees[rel], cls, fn) if rel in trees else None
        skeletons.append((f"{cls}.{fn}", ";".join(action_skel(f.body)) if f is not None else "MISSING"))

    tag_constants = []
    for rel, tree in sorted(trees.items()):
        for n in ast.walk(tree):
            if isinstance(n, ast.ClassDef):
                v = class_binds_mode(n)
                if v is not None:
                    tag_constants.append((n.name, v))

    kinds = ["raiseGuard", "dispatch", "tagConstant", "definition", "hash", "other"]
    L = []
    L.append("/-! Inventory of every consultation of the tolerance mode in liquid/ and the tables / skeletons the C03 model rests on. -/")
    L.append("namespace LiquidVerif.Gen.ModeSites\n")
    L.append("inductive Kind where\n  | " + " | ".join(kinds) + "\n  deriving DecidableEq, Repr\n")
    L.append("structure Site where\n  file : String\n  line : Nat\n  func : String\n  kind : Kind\n  text : String\n  deriving Repr\n")
    L.append("def Kind.benign : Kind → Bool\n  | .other => false\n  | _ => true\n")
    L.append("def sites : List Site := [")
    L.append(",\n".join(f"  ⟨{lean_str(a)}, {b}, {lean_str(c)}, .{d}, {lean_str(e)}⟩" for a, b, c, d, e in sites))
    L.append("]\n")
    L.append("/-- kinds only, in source order: what the obligation is about (line numbers may drift harmlessly) -/")
    L.append("def kinds : List Kind := sites.map (·.kind)\n")
    L.append("/-- every consultation of the mode is a strict-only raise guard, the dispatch inside `error`, a tag-local constant,\n    a definition or a hash — none can change what a run that raises nothing computes -/")
    L.append("theorem all_sites_benign : kinds.all Kind.benign = true := by decide\n")
    L.append("def countKind (k : Kind) : Nat := (kinds.filter (· == k)).length\n")
    L.append("def warnings : List (String × String) := [" + ", ".join(f"({lean_str(a)}, {lean_str(b)})" for a, b in warnings_tbl) + "]\n")
    L.append("def syntaxClasses : List String := [" + ", ".join(lean_str(c) for c in syntax_classes) + "]\n")
    L.append("def errorShapes : List (String × String) := [" + ", ".join(f"({lean_str(a)}, {lean_str(b)})" for a, b in err_shapes) + "]\n")
    L.append("/-- classes that bind a tag-local `mode` constant (independent of the environment's tolerance) -/")
    L.append("def tagConstants : List (String × String) := [" + ", ".join(f"({lean_str(a)}, {lean_str(b)})" for a, b in tag_constants) + "]\n")
    L.append("def skeletons : List (String × String) := [\n" + ",\n".join(f"  ({lean_str(a)}, {lean_str(b)})" for a, b in skeletons) + "]\n")
    L.append("end LiquidVerif.Gen.ModeSites")
    info = {
        "sites": [{"file": a, "line": b, "func": c, "kind": d, "text": e} for a, b, c, d, e in sites],
        "by_kind": {k: sum(1 for s in sites if s[3] == k) for k in kinds},
        "warnings": warnings_tbl,
        "syntax_classes": syntax_classes,
        "error_methods": dict(err_shapes),
        "tag_constants": tag_constants,
        "skeletons": dict(skeletons),
    }
    return {"ModeSites.lean": "\n".join(L) + "\n", "mode_sites.json": json.dumps(info, indent=1, sort_keys=True) + "\n"}
