"""C20 emitter: Python's `re` character classes for `str` patterns above U+00FF.

`_RE` (liquid/builtin/expressions/_tokenize.py), the liquid-tag line rules and the template lexer are compiled
from `str` patterns without `re.ASCII`, so `\\w`, `\\d`, `\\s` are Unicode-aware; `str.strip()` / `splitlines`
use `str.isspace`.  The classes are properties of the interpreter's Unicode database, not of the tree under
test: they are dumped here (ranges of code points from U+0100 up, surrogates excluded) into
lean/LiquidVerif/Gen/C20Unicode.lean, and stream `charclass` compares the model's classifiers with `re` on
every code point.  Also records that the expression lexer's pattern flags do not include re.ASCII.
"""
from __future__ import annotations

import re
import sys
from pathlib import Path


def ranges(pred):
    out, start, prev = [], None, None
    for cp in range(0x100, 0x110000):
        if 0xD800 <= cp <= 0xDFFF:
            ok = False
        else:
            ok = pred(chr(cp))
        if ok:
            if start is None:
                start = cp
            prev = cp
        elif start is not None:
            out.append((start, prev))
            start = None
    if start is not None:
        out.append((start, prev))
    return out


def emit(repo: Path) -> dict:
    w, d, s = re.compile(r"\w"), re.compile(r"\d"), re.compile(r"\s")
    tables = {
        "wordRanges": ranges(lambda c: w.fullmatch(c) is not None),
        "digitRanges": ranges(lambda c: d.fullmatch(c) is not None),
        "spaceRanges": ranges(lambda c: s.fullmatch(c) is not None),
        "isspaceRanges": ranges(lambda c: c.isspace()),
    }
    if tables["spaceRanges"] != tables["isspaceRanges"]:
        raise RuntimeError("re \\s and str.isspace differ above U+00FF")
    L = ["/-! `re` classes `\\w`, `\\d`, `\\s` (= `str.isspace`) of this interpreter for code points from U+0100 up (inclusive ranges). -/",
         "namespace LiquidVerif.Gen.C20Unicode", "", f"def unicodeVersion : String := \"{__import__('unicodedata').unidata_version}\"", ""]
    for name in ("wordRanges", "digitRanges", "spaceRanges"):
        rs = tables[name]
        L.append(f"def {name} : List (Nat × Nat) := [")
        rows = [", ".join(f"({a}, {b})" for a, b in rs[i : i + 8]) for i in range(0, len(rs), 8)]
        L.append(",\n".join("  " + r for r in rows))
        L.append("]\n")
    L.append("end LiquidVerif.Gen.C20Unicode")
    return {"C20Unicode.lean": "\n".join(L) + "\n"}


if __name__ == "__main__":
    print(emit(Path(sys.argv[1] if len(sys.argv) > 1 else "/repo"))["C20Unicode.lean"][:600])
