#!/bin/bash
# integrator helper: tools/integrate.sh <tag> <Cxx> [<Cyy>…]  — merge build-<tag>, cherry-pick fix-<tag>, regenerate, run checks
set -u
tag=$1; shift
cd /verif || exit 2
if [ -z "${SKIP_PICK:-}" ]; then
echo "== cherry-pick fix-$tag into /repo"
base=$(git -C /repo merge-base main fix-$tag)
for c in $(git -C /repo rev-list --reverse $base..fix-$tag); do
  git -C /repo cherry-pick -x $c >/dev/null 2>&1 || { echo "CHERRY-PICK CONFLICT at $c"; git -C /repo status --short | head; exit 1; }
  echo "  picked $(git -C /repo log -1 --format='%h %s')"
done
fi
echo "== merge build-$tag"
git stash -q 2>/dev/null; git stash drop -q 2>/dev/null; git merge --no-ff --no-commit build-$tag >/dev/null 2>&1
for f in MANIFEST.json known_findings.json lean/Driver/Main.lean lean/LiquidVerif.lean; do
  git checkout --ours -- $f 2>/dev/null; git add $f 2>/dev/null
done
if git diff --name-only --diff-filter=U | grep -q .; then echo "UNRESOLVED:"; git diff --name-only --diff-filter=U; exit 1; fi
python3 tools/gen_driver_main.py >/dev/null
python3 tools/merge_known.py
/venv/bin/python tools/gen_manifest.py
git add -A; git commit -qm "Merge build-$tag ($*)" && echo "  merged"
echo "== repo suite"
(cd /repo && /venv/bin/python -m pytest -q -p no:cacheprovider --timeout=900 --continue-on-collection-errors 2>&1 | grep -E "passed|failed" | tail -1)
echo "== lake build"
tools/lb 2>&1 | grep -E "error|Build completed" | head
for id in "$@"; do echo "== check $id"; ./check $id 2>&1 | tail -3; done
