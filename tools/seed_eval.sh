#!/bin/bash
# tools/seed_eval.sh <Cxx> <dir with patch.diff demo.py meta.json> [other checks…]
# Confirms a seeded change (demo passes before / fails after, repo suite still passes) and runs our check(s) on it.
id=$1; dir=$(realpath $2); shift 2; others="$*"
w=/tmp/ev-$id-$$
git -C /repo worktree add -q --detach $w main || exit 2
cd $w
echo "-- demo on pristine:"; PYTHONPATH=$w timeout 300 /venv/bin/python $dir/demo.py >/dev/null 2>&1; echo "   exit $?"
git apply $dir/patch.diff || { echo "PATCH DOES NOT APPLY"; git -C /repo worktree remove --force $w; exit 2; }
echo "-- demo with change:"; PYTHONPATH=$w timeout 300 /venv/bin/python $dir/demo.py >/dev/null 2>&1; echo "   exit $?"
echo "-- repo suite with change:"; rm -rf .hypothesis; /venv/bin/python -m pytest -q -p no:cacheprovider --timeout=900 --continue-on-collection-errors 2>&1 | grep -E "passed|failed" | tail -1
rm -rf .hypothesis
cd /verif
rm -rf /tmp/ev-gen-$$; cp -r lean/LiquidVerif/Gen /tmp/ev-gen-$$; cp -r evidence /tmp/ev-evi-$$
for c in $id $others; do
  echo "-- ./check $c on the changed tree:"
  LIQUID_REPO=$w ./check $c 2>&1 | grep -E "VIOLATION|tier=" | tail -3
  ls -t replay/$c-* 2>/dev/null | head -1
done
rm -rf lean/LiquidVerif/Gen evidence; mv /tmp/ev-gen-$$ lean/LiquidVerif/Gen; mv /tmp/ev-evi-$$ evidence
git -C /repo worktree remove --force $w
